------------------------------ MODULE BFTOps ------------------------------
(* Pure operators of thor's finality gadget over canonical block ids (a block IS its path from genesis, a sequence
   of <<signer, com>> pairs).  Shared by BFT.tla (multi-node design model) and store/ImportCrash.tla.              *)
EXTENDS Integers, Sequences, FiniteSets, TLC

CONSTANTS E,          \* epoch length
          W,          \* voting weight per validator (all 1 under PoA)
          ThrW,       \* an epoch is justified/committed when weight > ThrW  (mbp*2/3 resp. total*2/3)
          Rank        \* total order on validators used for the id tie-break

NoBlock == << <<"none", FALSE>> >>

Num(b) == Len(b)
Par(b) == SubSeq(b, 1, Len(b) - 1)
Signer(b) == b[Len(b)][1]
Com(b) == b[Len(b)][2]
AncAt(b, n) == SubSeq(b, 1, n)
IsAnc(a, b) == Len(a) <= Len(b) /\ SubSeq(b, 1, Len(a)) = a
SameChain(a, b) == IsAnc(a, b) \/ IsAnc(b, a)
CP(n) == (n \div E) * E             \* checkpoint height of n's epoch
SP(n) == CP(n) + E - 1              \* store point (last height) of n's epoch

RECURSIVE SumW(_)
SumW(S) == IF S = {} THEN 0 ELSE LET x == CHOOSE x \in S : TRUE IN W[x] + SumW(S \ {x})

\* heights of the blocks of b's epoch up to b (genesis, height 0, has no signer)
EpochIdx(b) == {i \in 1..Len(b) : i >= CP(Len(b))}
Voters(b) == {b[i][1] : i \in EpochIdx(b)}
\* a validator that signed both a COM and a non-COM block in the epoch counts as non-COM
ComVoters(b) == {v \in Voters(b) : \A i \in EpochIdx(b) : b[i][1] = v => b[i][2]}
Justified(b) == SumW(Voters(b)) > ThrW
Committed(b) == SumW(ComVoters(b)) > ThrW
RECURSIVE Quality(_)
Quality(b) == IF Len(b) = 0 THEN 0
              ELSE LET cp == CP(Len(b))
                       pq == IF cp = 0 THEN 0 ELSE Quality(AncAt(b, cp - 1))
                   IN pq + (IF Justified(b) THEN 1 ELSE 0)
EpochQ(h, n) == Quality(AncAt(h, SP(n)))

\* bft.findCheckpointByQuality(target, finalized = f, head = h): first concluded epoch, from f's epoch on, whose
\* quality reaches target; it must hit it exactly.
FindCP(target, f, h) ==
  LET start == CP(Len(f))
      cands == {k \in 0..(Len(h) \div E) : k*E >= start /\ k*E + E - 1 <= Len(h) /\ EpochQ(h, k*E) >= target}
  IN IF cands = {} THEN NoBlock
     ELSE LET k == CHOOSE k \in cands : \A j \in cands : k <= j
          IN IF EpochQ(h, k*E) = target THEN AncAt(h, k*E) ELSE NoBlock

\* bft.ShouldVote: the COM bit of v's block on parent p, given v's finalized f and casts cs
ShouldVoteWith(f, cs, p) ==
  IF (Len(p) + 1) \div E = 0 THEN FALSE
  ELSE LET q == Quality(p) IN
    IF q = 0 THEN FALSE
    ELSE LET jc == IF Justified(p) THEN AncAt(p, CP(Len(p)))
                   ELSE FindCP(q, f, AncAt(p, SP(Len(p) - E)))
         IN /\ jc # NoBlock
            /\ \A c \in cs : (Len(c[1]) >= Len(f) /\ c[2] >= q - 1) => SameChain(c[1], jc)

\* id order: lexicographic on the path with Rank on signers, non-COM < COM
RECURSIVE LessPath(_,_,_)
LessPath(a, b, i) == IF i > Len(a) THEN FALSE
                     ELSE IF a[i] = b[i] THEN LessPath(a, b, i + 1)
                     ELSE \/ Rank[a[i][1]] < Rank[b[i][1]]
                          \/ (a[i][1] = b[i][1] /\ ~a[i][2] /\ b[i][2])
\* fork choice of bft.Select: quality, then score (here: height), then smaller id
Better(b, cur) == \/ Quality(b) > Quality(cur)
                  \/ Quality(b) = Quality(cur) /\ Len(b) > Len(cur)
                  \/ Quality(b) = Quality(cur) /\ Len(b) = Len(cur) /\ LessPath(b, cur, 1)
Accepts(f, b) == IsAnc(f, Par(b))

Prefixes(s) == {SubSeq(s, 1, n) : n \in 0..Len(s)}

\* finalized after committing b when it was f before (bft.CommitBlock).  The search cannot fail for a block that
\* descends from f unless b lies in f's own epoch (late sibling, finding F1); specified: finality unchanged.
NewFin(f, b) == IF Len(b) = SP(Len(b)) /\ Committed(b) /\ Quality(b) > 1
                THEN LET c == FindCP(Quality(b) - 1, f, b) IN IF c = NoBlock \/ ~IsAnc(f, c) THEN f ELSE c
                ELSE f

\* node state update for committing one block, on a record
CommitRec(st, v, b) ==
  [ seen |-> st.seen \cup {b},
    best |-> IF Better(b, st.best) THEN b ELSE st.best,
    fin  |-> NewFin(st.fin, b),
    casts |-> IF Signer(b) = v
              THEN LET cp == AncAt(b, CP(Len(b))) IN {c \in st.casts : c[1] # cp} \cup {<<cp, Quality(b)>>}
              ELSE st.casts ]

\* bft.newCasts: for every head of the stored tree at or above finalized, the latest own block on it
Heads(S, f) == {h \in S : Len(h) >= Len(f) /\ ~\E x \in S : x # h /\ IsAnc(h, x)}
LatestOwn(v, h, f) ==
  LET idx == {i \in 1..Len(h) : h[i][1] = v /\ (i > Len(f) \/ i = Len(h))} \* walk stops once height <= finalized
  IN IF idx = {} THEN NoBlock ELSE AncAt(h, CHOOSE i \in idx : \A j \in idx : j <= i)
NewCasts(v, S, f) ==
  LET own == {LatestOwn(v, h, f) : h \in Heads(S, f)} \ {NoBlock}
      cps == {AncAt(b, CP(Len(b))) : b \in own}
  IN {<<cp, CHOOSE q \in {Quality(b) : b \in {x \in own : AncAt(x, CP(Len(x))) = cp}} :
              \A b \in {x \in own : AncAt(x, CP(Len(x))) = cp} : Quality(b) <= q>> : cp \in cps}

=============================================================================
