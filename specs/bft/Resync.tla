---- MODULE Resync ----
(* bft.Engine.Resync (bft/engine.go) - the one-time start-up pass that recomputes the persisted quality of every store
   point of the best chain from the first PoS epoch on, and advances the finalized checkpoint with the recomputed
   values.  It is run by cmd/thor/main.go after bft.NewEngine on nodes without the pruner, guarded by a persisted
   version number.

   Abstraction: only the best chain matters (Resync walks repo.NewChain(best)); it is cut into epochs 1..N, each with
   a checkpoint (first block) and a store point (last block).  Genesis is the checkpoint of epoch 1.  The votes of an
   epoch are summarised by two FACTS about its store point, as computeState derives them from headers and weights:
   J[e] (justified) and C[e] (committed), C[e] => J[e].  The stale store is what a node holds that imported the same
   chain under different facts OJ / OC (the "pre-housekeep threshold" the pass exists for), optionally with qualities
   missing (F2: a crash between the block bulk and saveQuality).

   One action per storage write, in the order of the code: quality of store point k, then (maybe) finalized, ...,
   finally the version.  A crash may fall between any two writes; the restarted node runs the pass again from the
   first store point because the version was not saved. *)
EXTENDS Integers, Sequences, FiniteSets, TLC

CONSTANTS N,          \* epochs of the best chain that have a store point
          Start,      \* first epoch the pass recomputes (epoch of HAYABUSA+HayabusaTP); epochs below keep their value
          MaxCrashes,
          RepairAtStart, \* TRUE: the start-up repair of an interrupted commit exists (code after the fix of F2)
          AllowMissing, \* TRUE: stale store may lack qualities (F2)
          Variant      \* "asis" = the code; seeded design errors the properties must reject: "noguard" (the
                       \* finalized-epoch guard dropped), "fromgenesis" (search from genesis, result always written)

Epochs == 1..N
Missing == -1

VARIABLES J, C,        \* facts of the chain (constant during a behaviour)
          hsp,         \* the head of the best chain is a store point (the chain ends exactly with epoch N)
          dq,          \* persisted quality per store point (Missing = no entry)
          dFin,        \* persisted finalized checkpoint, as the number of the epoch it opens (1 = genesis)
          ver,         \* persisted resync version (0 / 1)
          k,           \* next store point of the running pass (0 = not running)
          pc,          \* "off" | "q" | "fin" | "ver" | "done" | "failed"
          up, crashes,
          fin0, q0     \* the stale store the behaviour started from (history, for the completion properties)
vars == <<J, C, hsp, dq, dFin, ver, k, pc, up, crashes, fin0, q0>>

Max(a, b) == IF a >= b THEN a ELSE b
GetQ(f, e) == IF f[e] = Missing THEN 0 ELSE f[e]            \* getQuality: not found => 0

\* quality by the definition: number of justified epochs so far
RECURSIVE TrueQ(_, _)
TrueQ(j, e) == IF e = 0 THEN 0 ELSE TrueQ(j, e - 1) + (IF j[e] THEN 1 ELSE 0)

\* sort.Search over epochs a..b of f (first index with quality >= target), exactly as findCheckpointByQuality
RECURSIVE BSearch(_, _, _, _, _)
BSearch(f, a, lo, hi, target) ==             \* invariant of sort.Search: answer in [lo, hi]; indices are offsets from a
    IF lo >= hi THEN lo
    ELSE LET mid == (lo + hi) \div 2
         IN IF GetQ(f, a + mid) >= target THEN BSearch(f, a, lo, mid, target) ELSE BSearch(f, a, mid + 1, hi, target)
\* result: epoch found, or 0 = the error "failed to find the block by quality"
FindCP(f, target, fin, head) ==
    LET n == head - fin + 1
        num == BSearch(f, fin, 0, n, target)
    IN IF num = n THEN 0 ELSE IF GetQ(f, fin + num) # target THEN 0 ELSE fin + num

\* the import rule applied along the chain under facts (j, c): what CommitBlock leaves behind (quality map, finalized)
RECURSIVE Imported(_, _, _, _, _)
Imported(j, c, e, f, fin) ==
    IF e > N THEN <<f, fin>>
    ELSE LET q == (IF e = 1 THEN 0 ELSE GetQ(f, e - 1)) + (IF j[e] THEN 1 ELSE 0)
             f2 == [f EXCEPT ![e] = q]
             cp == IF c[e] /\ q > 1 /\ e > fin THEN FindCP(f2, q - 1, fin, e) ELSE 0
         IN Imported(j, c, e + 1, f2, IF cp > fin THEN cp ELSE fin)
Fresh(j, c) == Imported(j, c, 1, [e \in Epochs |-> Missing], 1)

Facts == {jc \in [Epochs -> {"none", "just", "com"}] : TRUE}
JOf(p) == [e \in Epochs |-> p[e] # "none"]
COf(p) == [e \in Epochs |-> p[e] = "com"]

\* bft.NewEngine -> recoverInterruptedCommit (fix of F2), which runs BEFORE the pass at every start: if the head of the
\* chain is a store point it is committed (again) with the qualities as they are in the store
Repaired(f, fin) ==
  IF ~(RepairAtStart /\ hsp) THEN <<f, fin>>
  ELSE LET q == (IF N = 1 THEN 0 ELSE GetQ(f, N - 1)) + (IF J[N] THEN 1 ELSE 0)
           f2 == [f EXCEPT ![N] = q]
           cp == IF C[N] /\ q > 1 /\ N > fin THEN FindCP(f2, q - 1, fin, N) ELSE 0
       IN <<f2, IF cp > fin THEN cp ELSE fin>>

Init == \E p \in Facts, op \in Facts, miss \in SUBSET Epochs, h \in BOOLEAN :
          /\ hsp = h
          /\ (miss # {} => AllowMissing)
          /\ \A e \in Epochs : e < Start => op[e] = p[e]            \* epochs before the pass are not stale
          /\ \A e \in miss : e >= Start
          /\ J = JOf(p) /\ C = COf(p)
          /\ LET old == Fresh(JOf(op), COf(op))
                 q == [e \in Epochs |-> IF e \in miss THEN Missing ELSE old[1][e]]
             IN dq = q /\ q0 = q /\ dFin = old[2] /\ fin0 = old[2]
          /\ ver = 0 /\ k = 0 /\ pc = "off" /\ up = TRUE /\ crashes = 0

\* Resync entered at start-up: version check
Begin == /\ up /\ pc = "off"
         \* the finalized checkpoint the store implies is the one after this repair: it is what the node would hold had
         \* the interrupted commit completed (with the same, possibly stale, qualities)
         /\ LET r == Repaired(dq, dFin) IN dq' = r[1] /\ dFin' = r[2] /\ fin0' = r[2]
         /\ IF ver >= 1 THEN pc' = "done" /\ k' = 0
            ELSE IF Start > N THEN pc' = "ver" /\ k' = 0
            ELSE pc' = "q" /\ k' = Start
         /\ UNCHANGED <<J, C, hsp, ver, up, crashes, q0>>

NewQ == (IF k = 1 THEN 0 ELSE GetQ(dq, k - 1)) + (IF J[k] THEN 1 ELSE 0)

\* saveQuality(storeID, st.Quality)
WQ == /\ up /\ pc = "q"
      /\ dq' = [dq EXCEPT ![k] = NewQ]
      /\ pc' = "fin"
      /\ UNCHANGED <<J, C, hsp, dFin, ver, k, up, crashes, fin0, q0>>

Next1 == IF k = N THEN <<0, "ver">> ELSE <<k + 1, "q">>
\* finalized advances (one write), is left alone (no write), or the search fails (the pass returns an error)
WFin == /\ up /\ pc = "fin"
        /\ LET q == GetQ(dq, k)
               wants == C[k] /\ q > 1 /\ (k > dFin \/ Variant = "noguard")
               cp == IF ~wants THEN dFin
                     ELSE IF Variant = "fromgenesis" THEN FindCP(dq, q - 1, 1, k)
                     ELSE IF k < dFin THEN 0                     \* "headID precedes finalized"
                     ELSE FindCP(dq, q - 1, dFin, k)
           IN IF wants /\ cp = 0 THEN /\ pc' = "failed" /\ UNCHANGED <<dFin, k>>
              ELSE /\ dFin' = (IF cp > dFin \/ (wants /\ Variant = "fromgenesis") THEN cp ELSE dFin)
                   /\ k' = Next1[1] /\ pc' = Next1[2]
        /\ UNCHANGED <<J, C, hsp, dq, ver, up, crashes, fin0, q0>>

WVer == /\ up /\ pc = "ver"
        /\ ver' = 1 /\ pc' = "done"
        /\ UNCHANGED <<J, C, hsp, dq, dFin, k, up, crashes, fin0, q0>>

Crash == /\ up /\ pc \in {"q", "fin", "ver"} /\ crashes < MaxCrashes
         /\ up' = FALSE /\ crashes' = crashes + 1 /\ pc' = "off" /\ k' = 0
         /\ UNCHANGED <<J, C, hsp, dq, dFin, ver, fin0, q0>>
Restart == /\ ~up /\ up' = TRUE
           /\ UNCHANGED <<J, C, hsp, dq, dFin, ver, k, pc, crashes, fin0, q0>>

Next == Begin \/ WQ \/ WFin \/ WVer \/ Crash \/ Restart
Spec == Init /\ [][Next]_vars

----
TypeOK == /\ dFin \in Epochs /\ ver \in {0, 1} /\ k \in 0..N
          /\ pc \in {"off", "q", "fin", "ver", "done", "failed"}
\* the finalized checkpoint only ever moves forward along the chain (C03, single node)
FinMonotone == [][dFin' >= dFin]_vars
\* the pass never fails on a store a node can hold: the node can start
NeverFails == pc # "failed"
\* the version is saved last: a saved version means every store point holds the quality of the definition
VersionLast == (ver = 1 /\ Start <= N) =>
                 \A e \in Epochs : e >= Start => dq[e] = TrueQ(J, e)
\* completion: the finalized checkpoint is the later of the stale one and the one a fresh import of the chain reaches
\* (C04: restarts and migrations do not change what the node reports for the same blocks)
FreshFin == Fresh(J, C)[2]
Completion == (pc = "done" /\ Start = 1) => dFin = Max(fin0, FreshFin)
\* a pass over a store that is already right changes nothing
Idempotent == (q0 = Fresh(J, C)[1] /\ fin0 = FreshFin) => (dFin = fin0 /\ \A e \in Epochs : GetQ(dq, e) = GetQ(q0, e))
====
