---- MODULE MC_BFTEpochSim ----
(* Schedule export from the epoch-level model for replay on the real engine (cmd/bftsim -epochsched):
   BFTEpoch.tla with a history variable recording the honest votes in order.
   - with a seeded design error (Variant # "asis") the first state that breaks FinalitySafety writes its schedule to
     cex.json: a vote order in which the WRONG rule finalizes two conflicting checkpoints.  The real engine, driven
     through the same order, must refuse the decisive COM votes and finalize nothing conflicting;
   - with Variant = "asis" and -simulate, every behaviour of length SD is written to sched_<k>.json.              *)
EXTENDS MC_BFTEpoch, Json
VARIABLE hist
svars == <<vars, hist>>
SD == 10
SInit == Init /\ hist = <<>>
SNext == \E v \in Honest, c \in Nodes :
            /\ HVote(v, c)
            /\ hist' = Append(hist, [v |-> v, c |-> c, bit |-> vt'[c][v]])
SSpec == SInit /\ [][SNext]_svars
Safe == \A a, b \in FinSet(vt) : SameChain(a, b)
ExportCex == ~Safe => JsonSerialize("cex.json", [variant |-> Variant, steps |-> hist, fin |-> FinSet(vt)])
ExportSched == Len(hist) = SD =>
                 JsonSerialize("sched_" \o ToString(TLCGet("stats").traces) \o ".json",
                               [variant |-> Variant, steps |-> hist, fin |-> FinSet(vt)])
====
