SPECIFICATION Spec
CONSTANTS
  a = a
  b = b
  c = c
  d = d
  V = {a, b, c, d}
  Byz = {d}
  E = 3
  W <- W1
  ThrW = 2
  MaxBlocks = 4
  MaxByz = 2
  MaxRestarts = 0
  Seed <- SeedDef
  Rank <- RankDef
INVARIANT FinalitySafety
INVARIANT BestExtendsFin
INVARIANT FinIsCheckpoint
INVARIANT OrderIndependence
INVARIANT RestartKeepsVoteRule
PROPERTY FinMonotone
CHECK_DEADLOCK FALSE
