---- MODULE MC_Resync ----
EXTENDS Resync
====
