SPECIFICATION Spec
CONSTANTS N = 4
  Start = 1
  MaxCrashes = 1
  Variant = "asis"
  RepairAtStart = TRUE
  AllowMissing = TRUE
INVARIANTS TypeOK NeverFails VersionLast Completion Idempotent
PROPERTY FinMonotone
CHECK_DEADLOCK FALSE
