---- MODULE MCBFT ----
EXTENDS BFT
CONSTANTS a, b, c, d
SeedDef == << <<a, FALSE>>, <<b, FALSE>>, <<a, FALSE>>, <<b, FALSE>>, <<c, FALSE>> >>
W1 == [v \in {a, b, c, d} |-> 1]
RankDef == (a :> 1) @@ (b :> 2) @@ (c :> 3) @@ (d :> 4)
\* PoS-like weights: total 7, threshold 7*2/3 = 4
WPos == (a :> 3) @@ (b :> 2) @@ (c :> 1) @@ (d :> 1)
====
