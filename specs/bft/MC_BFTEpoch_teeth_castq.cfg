SPECIFICATION Spec
CONSTANTS
  h1 = h1
  h2 = h2
  h3 = h3
  h4 = h4
  h5 = h5
  z = z
  z2 = z2
  V = {h1, h2, h3, z}
  Byz = {z}
  W <- W4
  Thr = 2
  Nodes <- ShapeY2
  ByzMax = TRUE
  MaxNodes = 4
  MaxVotes = 4
  Monotone = FALSE
  RootVotes = FALSE
  Variant = "castq"
INVARIANT FinalitySafety
SYMMETRY Sym
CHECK_DEADLOCK FALSE
