SPECIFICATION Spec
CONSTANTS
  a = a
  b = b
  c = c
  d = d
  V = {a, b, c, d}
  Byz = {d}
  E = 3
  W <- W1
  ThrW = 2
  MaxBlocks = 3
  MaxByz = 1
  MaxRestarts = 1
  Seed <- SeedDef
  Rank <- RankDef
INVARIANT NeverFinalizes
CHECK_DEADLOCK FALSE
