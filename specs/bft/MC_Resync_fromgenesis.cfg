SPECIFICATION Spec
CONSTANTS N = 4
  Start = 1
  MaxCrashes = 0
  Variant = "fromgenesis"
  AllowMissing = FALSE
PROPERTY FinMonotone
CHECK_DEADLOCK FALSE
