SPECIFICATION Spec
CONSTANTS N = 4
  Start = 1
  MaxCrashes = 0
  Variant = "fromgenesis"
  RepairAtStart = TRUE
  AllowMissing = FALSE
PROPERTY FinMonotone
CHECK_DEADLOCK FALSE
