---- MODULE BFTEpoch ----
(* Epoch-level model of thor's finality gadget (VIP-220 as implemented in bft/engine.go, justifier.go, casts.go).

   BFT.tla is block-accurate but its exhaustive configurations (3-4 new blocks) cannot reach two conflicting commits:
   FinalitySafety is never at risk there.  This module abstracts one ROUND (epoch) of one branch to the set of votes it
   collected, so that TLC can explore every way in which a few validators spread COM / non-COM votes over a tree of
   rounds several epochs deep, and decide the safety clause of C03 where it is falsifiable.

   A round node is a path of child indices from the first round (<<>>); forks happen at round boundaries (forks inside
   a round are BFT.tla's and the recorded traces' subject).  A node's votes can only grow while it is a leaf: adding a
   block to a round whose successor exists creates another branch, i.e. another node.
     vt[c][v] \in {"n", "w", "c"}    no block / only non-COM blocks (or both kinds: counts as non-COM) / only COM blocks
   justified(c): weight of voters > Thr; committed(c): weight of COM voters > Thr (justifier.Summarize);
   quality(c) = quality(parent) + 1 if justified (computeState); when a round of quality q > 1 is committed, the first
   round of its branch with quality q-1 is finalized (CommitBlock / findCheckpointByQuality) - that is the nearest
   justified proper ancestor.
   Honest validators use the vote rule of ShouldVote with their own casts (checkpoint -> quality at the time of the
   vote); Byzantine validators vote anything anywhere.  Views are complete (every validator knows every vote): the
   finalized checkpoint used to drop old casts is the newest one anybody could hold, the most permissive case. *)
EXTENDS Integers, Sequences, FiniteSets, TLC

CONSTANTS V, Byz,        \* validators, Byzantine subset
          W, Thr,        \* weights, threshold (justified iff weight > Thr)
          Nodes,         \* the round tree explored: a prefix-closed set of paths (<<>> = the first round)
          ByzMax,        \* TRUE: Byzantine validators are not state - they are present in every round with whatever
                         \* helps (a vote for justification, a COM vote for commitment); FALSE: explicit votes
          MaxNodes,      \* bound on round nodes that ever receive an (honest, if ByzMax) vote
          MaxVotes,      \* bound on the rounds one honest validator votes in
          RootVotes,     \* FALSE: the first round (no COM possible there) stays empty
          Monotone,      \* TRUE: an honest validator packs on its best block, and its best block never gets worse: the
                         \* (quality, height) of what it builds on is at least that of its own previous block.  FALSE:
                         \* honest validators may vote anywhere at any time (an over-approximation under which safety
                         \* holds for two-round branches and FAILS for three-round ones - see MC_BFTEpoch_y3free.cfg)
          Variant        \* "asis" | seeded design errors: "castq" (casts compared with q instead of q-1),
                         \* "norule" (no conflict check), "finq" (finalize on justified instead of committed),
                         \* "geq" (threshold >=), "dropcasts" (casts forgotten when a new one is made)
Honest == V \ Byz

Par(c) == SubSeq(c, 1, Len(c) - 1)
IsAnc(a, b) == Len(a) <= Len(b) /\ SubSeq(b, 1, Len(a)) = a
SameChain(a, b) == IsAnc(a, b) \/ IsAnc(b, a)

VARIABLES vt,      \* [Nodes -> [V -> {"n","w","c"}]]
          casts,   \* [Honest -> set of <<node, quality>>]
          last     \* [Honest -> <<quality, depth>>] of the validator's own latest block (its best block is at least that)
vars == <<vt, casts, last>>

RECURSIVE SumW(_)
SumW(S) == IF S = {} THEN 0 ELSE LET x == CHOOSE x \in S : TRUE IN W[x] + SumW(S \ {x})
Over(S) == IF Variant = "geq" THEN SumW(S) >= Thr ELSE SumW(S) > Thr

Placed(f, c) == {v \in V : f[c][v] # "n"}
VotersIn(f, c) == Placed(f, c) \cup (IF ByzMax THEN Byz ELSE {})
ComIn(f, c) == {v \in V : f[c][v] = "c"} \cup (IF ByzMax THEN Byz ELSE {})
JustIn(f, c) == Over(VotersIn(f, c))
CommIn(f, c) == Over(ComIn(f, c))
RECURSIVE QIn(_, _)
QIn(f, c) == (IF c = <<>> THEN 0 ELSE QIn(f, Par(c))) + (IF JustIn(f, c) THEN 1 ELSE 0)
Exists(c) == c = <<>> \/ ByzMax \/ Placed(vt, c) # {}
IsLeaf(c) == ~\E k \in Nodes : k # c /\ IsAnc(c, k) /\ Placed(vt, k) # {}
Used == Cardinality({c \in Nodes : Placed(vt, c) # {}})

\* nearest justified ancestor-or-self
RECURSIVE NJ(_, _)
NJ(f, c) == IF JustIn(f, c) THEN c ELSE IF c = <<>> THEN <<-1>> ELSE NJ(f, Par(c))

\* finalizable checkpoints under vote table f
Trigger(f, c) == IF Variant = "finq" THEN JustIn(f, c) ELSE CommIn(f, c)
FinSet(f) == {a \in Nodes : \E c \in Nodes : /\ Trigger(f, c) /\ JustIn(f, c) /\ QIn(f, c) > 1
                                              /\ c # <<>> /\ a = NJ(f, Par(c))}
\* the newest finalized checkpoint anybody could hold (<<>> = genesis when none)
Newest(f) == LET F == FinSet(f) IN IF F = {} THEN <<>> ELSE CHOOSE a \in F : \A b \in F : Len(b) <= Len(a)

\* ShouldVote for honest v about to add a block to round c
Rule(v, c) ==
  LET hasVotes == Placed(vt, c) # {}
      x == IF hasVotes THEN c ELSE Par(c)                 \* the round the parent block is in
  IN IF c = <<>> THEN FALSE                               \* no COM in the first round
     ELSE LET hq == QIn(vt, x) IN
       IF hq = 0 THEN FALSE
       ELSE LET jc == NJ(vt, x)
                fz == Newest(vt)
                bound == IF Variant = "castq" THEN hq ELSE hq - 1
            IN \/ Variant = "norule"
               \/ \A k \in casts[v] : (Len(k[1]) >= Len(fz) /\ k[2] >= bound) => SameChain(k[1], jc)

Init == /\ vt = [c \in Nodes |-> [v \in V |-> "n"]]
        /\ casts = [v \in Honest |-> {}]
        /\ last = [v \in Honest |-> <<0, 0>>]
\* fork choice (bft.Select): quality first, then total score - here the depth of the round
AtLeast(a, b) == a[1] > b[1] \/ (a[1] = b[1] /\ a[2] >= b[2])

CanTouch(c) == /\ (c = <<>> \/ Exists(Par(c)))
               /\ (RootVotes \/ c # <<>>)
               /\ IsLeaf(c)
               /\ (Placed(vt, c) # {} \/ Used < MaxNodes)
               \* a round follows a round that happened: the parent round is not empty (root may be)
HVote(v, c) ==
  /\ CanTouch(c) /\ vt[c][v] = "n"
  /\ Cardinality({k \in Nodes : vt[k][v] # "n"}) < MaxVotes
  /\ LET x == IF Placed(vt, c) # {} \/ c = <<>> THEN c ELSE Par(c)
     IN Monotone => AtLeast(<<QIn(vt, x), Len(c)>>, last[v])
  /\ LET bit == IF Rule(v, c) THEN "c" ELSE "w"
         f2 == [vt EXCEPT ![c][v] = bit]
     IN /\ vt' = f2
        /\ casts' = [casts EXCEPT ![v] = IF Variant = "dropcasts" THEN {<<c, QIn(f2, c)>>}
                                          ELSE {k \in @ : k[1] # c} \cup {<<c, QIn(f2, c)>>}]
        /\ last' = [last EXCEPT ![v] = <<QIn(f2, c), Len(c)>>]
BVote(z, c, bit) ==
  /\ CanTouch(c)
  /\ \/ vt[c][z] = "n"
     \/ vt[c][z] = "c" /\ bit = "w"          \* a later non-COM block in the same round: counts as non-COM
  /\ vt' = [vt EXCEPT ![c][z] = bit]
  /\ UNCHANGED <<casts, last>>

Next == \/ \E v \in Honest, c \in Nodes : HVote(v, c)
        \/ ~ByzMax /\ \E z \in Byz, c \in Nodes, bit \in {"w", "c"} : BVote(z, c, bit)
Spec == Init /\ [][Next]_vars

----
\* C03: finalized checkpoints of honest nodes lie on one chain - whatever subset of the votes each of them has seen,
\* what it finalizes is in FinSet
FinalitySafety == \A a, b \in FinSet(vt) : SameChain(a, b)
\* vacuity probes (must be violated)
NeverFinalizes == FinSet(vt) = {}
NeverTwoBranchesJustified == ~\E a, b \in Nodes : ~SameChain(a, b) /\ JustIn(vt, a) /\ JustIn(vt, b)
====
