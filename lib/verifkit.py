"""verifkit - shared machinery of the /verif runner.

Every property check lives in /verif/checks/Cxx.py and exposes  run(ctx) .
The check uses the helpers here to
  * build harness binaries from /repo's *current* working tree with -tags verif,
  * run TLC (exhaustive, simulation, trace validation) in a scratch directory,
  * report verdicts with the policy of DESIGN.md section 2:
        exit 0  everything explored conformed
        exit 1  + "VIOLATION property=<id> replay=<path>"   deviation observed on the real code
        exit 2  infrastructure trouble / spec-only counterexample (never a VIOLATION line)
  * write evidence/<id>.json with measured numbers only.
"""
import json
import os
import re
import shutil
import subprocess
import sys
import tempfile
import time

VERIF = os.path.dirname(os.path.dirname(os.path.abspath(__file__)))
TLA_CP = "/opt/veriftools/tla/tla2tools.jar:/opt/veriftools/tla/CommunityModules-deps.jar"


MACHINE_TROUBLE = ("fatal error: runtime: out of memory", "cannot allocate memory", "no space left on device",
                   "too many open files", "fatal error: runtime: cannot allocate", "newosproc", "resource temporarily unavailable")


class Infra(Exception):
    """Infrastructure problem: exit 2, never a violation."""


class Violation(Exception):
    def __init__(self, msg, replay=None, signature=None):
        super().__init__(msg)
        self.replay = replay
        self.signature = signature


class TLCResult:
    def __init__(self):
        self.rc = None
        self.out = ""
        self.generated = 0
        self.distinct = 0
        self.depth = 0
        self.timeout = False
        self.invariant = None      # name of violated invariant / property, if any
        self.error = None          # other TLC error text
        self.wall = 0.0
        self.workdir = None

    @property
    def ok(self):
        return self.rc == 0 and not self.timeout and self.invariant is None and self.error is None


class Ctx:
    def __init__(self, prop, tier, seed, replay=None):
        self.prop = prop
        self.tier = tier
        self.seed = seed
        self.replay = replay
        self.repo = os.environ.get("VERIF_REPO", "/repo")
        self.t0 = time.time()
        self.scratch = tempfile.mkdtemp(prefix="verif-%s-" % prop)
        self.builddir = os.path.join(VERIF, ".build" if self.repo == "/repo" else ".build-alt-%d" % os.getpid())
        os.makedirs(self.builddir, exist_ok=True)
        self.replaydir = os.path.join(VERIF, "replays", prop)
        self.cov = {
            "states": 0, "transitions": 0, "traces_validated_against_impl": 0,
            "samples": [], "evaluations": 0, "distinct_nontrivial": 0, "rule": "",
            "tlc_runs": [],
        }
        self.assumptions = []
        self.known_hit = []        # known findings observed in this run
        self.violations = []
        self.level = "model_checking"
        self.quick = tier == "quick"

    # ------------------------------------------------------------------ util
    def log(self, *a):
        print("[%s %6.1fs]" % (self.prop, time.time() - self.t0), *a, flush=True)

    def tmp(self, name):
        p = os.path.join(self.scratch, name)
        os.makedirs(p, exist_ok=True)
        return p

    def goenv(self):
        env = dict(os.environ)
        env["GOFLAGS"] = "-mod=mod"
        env["GOPROXY"] = "off"
        env.pop("GOSUMDB", None)          # GOSUMDB=off breaks the offline toolchain switch
        if env.get("GOTOOLCHAIN") == "local":
            env.pop("GOTOOLCHAIN")
        return env

    # ----------------------------------------------------------------- build
    def build(self, name, tags="verif", race=False):
        """Build harness/cmd/<name> against ctx.repo. Returns path of the binary."""
        hdir = os.path.join(VERIF, "harness")
        out = os.path.join(self.builddir, name + ("-race" if race else ""))
        cmd = ["go", "build", "-tags", tags, "-o", out]
        if race:
            cmd.insert(2, "-race")
        env = self.goenv()
        if race:
            env["CGO_ENABLED"] = "1"
        if self.repo != "/repo":
            # alternate tree (used to try seeded changes in a scratch worktree): private modfile
            mf = os.path.join(self.builddir, "go.mod")
            src = open(os.path.join(hdir, "go.mod")).read()
            src = src.replace("=> /repo", "=> " + self.repo)
            open(mf, "w").write(src)
            shutil.copy(os.path.join(hdir, "go.sum"), os.path.join(self.builddir, "go.sum"))
            cmd += ["-modfile", mf]
        ov = self.synclogdb_overlay(hdir)
        if ov:
            cmd += ["-overlay", ov]
        cmd.append("./cmd/" + name)
        t = time.time()
        p = subprocess.run(cmd, cwd=hdir, env=env, stdout=subprocess.PIPE, stderr=subprocess.STDOUT, text=True)
        if p.returncode != 0:
            raise Infra("harness build failed for %s:\n%s" % (name, p.stdout[-4000:]))
        self.log("built %s in %.1fs" % (name, time.time() - t))
        return out

    def synclogdb_overlay(self, hdir):
        """cmd/thor/sync_logdb.go is package main in thor; the harness needs it as a library. It is taken from the
        CURRENT tree of ctx.repo at every build and handed to the compiler through a per-run -overlay, so that
        concurrent builds against different trees never share a generated file."""
        src = os.path.join(self.repo, "cmd/thor/sync_logdb.go")
        dstdir = os.path.join(hdir, "internal/synclogdb")
        if not (os.path.isdir(dstdir) and os.path.exists(src)):
            return None
        body = open(src).read()
        body = re.sub(r"^package main", "package synclogdb", body, count=1, flags=re.M)
        gen = os.path.join(self.builddir, "sync_logdb_copied.%d.go" % os.getpid())
        open(gen, "w").write("// Code copied from cmd/thor/sync_logdb.go by verifkit at build time. DO NOT EDIT.\n" + body)
        ov = os.path.join(self.builddir, "overlay.%d.json" % os.getpid())
        json.dump({"Replace": {os.path.join(dstdir, "sync_logdb_copied.go"): gen}}, open(ov, "w"))
        return ov

    def prebuild_copy(self, hdir):
        """cmd/thor/sync_logdb.go is package main in thor; copy it from the *current* tree (DESIGN section 4)."""
        src = os.path.join(self.repo, "cmd/thor/sync_logdb.go")
        dstdir = os.path.join(hdir, "internal/synclogdb")
        if os.path.isdir(dstdir) and os.path.exists(src):
            body = open(src).read()
            body = re.sub(r"^package main", "package synclogdb", body, count=1, flags=re.M)
            dst = os.path.join(dstdir, "sync_logdb_copied.go")
            old = open(dst).read() if os.path.exists(dst) else None
            new = "// Code copied from cmd/thor/sync_logdb.go by verifkit at build time. DO NOT EDIT.\n" + body
            if old != new:
                open(dst, "w").write(new)

    def run(self, argv, timeout=None, env=None, cwd=None, stdin=None):
        """Run a harness binary. Returns (rc, stdout+stderr). rc None on timeout."""
        e = dict(os.environ)
        e["VERIF_SEED"] = str(self.seed)
        if env:
            e.update(env)
        try:
            p = subprocess.run(argv, cwd=cwd or self.scratch, env=e, stdout=subprocess.PIPE,
                               stderr=subprocess.STDOUT, text=True, timeout=timeout, input=stdin)
            if p.returncode != 0:
                # trouble of the machine is never an observation on the code under test, whatever else the output
                # contains (a Go OOM crash prints goroutine dumps that look like a panic of real code)
                for pat in MACHINE_TROUBLE:
                    if pat in p.stdout:
                        raise Infra("driver %s died of machine trouble (%s):\n%s" % (os.path.basename(argv[0]), pat, p.stdout[-1500:]))
                if p.returncode in (-9, 137):
                    raise Infra("driver %s was killed (rc %s)" % (os.path.basename(argv[0]), p.returncode))
            return p.returncode, p.stdout
        except subprocess.TimeoutExpired as ex:
            out = ex.stdout or ""
            if isinstance(out, bytes):
                out = out.decode("utf8", "replace")
            return None, out

    # ------------------------------------------------------------------- TLC
    def specdir(self, sub):
        """Scratch copy of specs/<sub> plus specs/lib (TLC litters its directory)."""
        d = tempfile.mkdtemp(prefix="spec-", dir=self.scratch)
        for srcdir in (os.path.join(VERIF, "specs", "lib"), os.path.join(VERIF, "specs", sub)):
            for f in os.listdir(srcdir):
                if f.endswith((".tla", ".cfg")):
                    shutil.copy(os.path.join(srcdir, f), d)
        return d

    def tlc(self, sub, module, cfg=None, workers=None, timeout=600, simulate=None, depth=None,
            extra=None, heap="4g", files=None, dfs=False, workdir=None, label=None, coverage=False,
            count=True):
        """Run TLC on specs/<sub>/<module>.tla with <cfg>. files: {name: path or text} copied into the run dir.
        Returns TLCResult. Never raises on invariant violation; the caller decides what it means."""
        d = workdir or self.specdir(sub)
        if files:
            for name, src in files.items():
                dst = os.path.join(d, name)
                if isinstance(src, str) and os.path.exists(src):
                    shutil.copy(src, dst)
                else:
                    open(dst, "w").write(src)
        cfg = cfg or (module + ".cfg")
        meta = tempfile.mkdtemp(prefix="meta-", dir=self.scratch)
        jopts = ["-XX:+UseParallelGC", "-XX:ParallelGCThreads=4", "-Xmx" + heap, "-Xss512m"]
        if dfs:
            jopts.append("-Dtlc2.tool.queue.IStateQueue=StateDeque")
        cmd = ["java"] + jopts + ["-cp", TLA_CP, "tlc2.TLC", "-metadir", meta, "-config", cfg,
                                   "-workers", str(workers or 8), "-seed", str(self.seed), "-noGenerateSpecTE"]
        if simulate:
            cmd += ["-simulate", simulate]
        if depth:
            cmd += ["-depth", str(depth)]
        if coverage:
            cmd += ["-coverage", "1"]
        if extra:
            cmd += extra
        cmd.append(module + ".tla")
        r = TLCResult()
        r.workdir = d
        t = time.time()
        env = dict(os.environ)
        env.pop("JAVA_TOOL_OPTIONS", None)
        try:
            p = subprocess.run(cmd, cwd=d, env=env, stdout=subprocess.PIPE, stderr=subprocess.STDOUT,
                               text=True, timeout=timeout)
            r.rc, r.out = p.returncode, p.stdout
        except subprocess.TimeoutExpired as ex:
            r.timeout = True
            o = ex.stdout or ""
            r.out = o.decode("utf8", "replace") if isinstance(o, bytes) else o
            subprocess.run(["pkill", "-f", meta], stdout=subprocess.DEVNULL, stderr=subprocess.DEVNULL)
        r.wall = time.time() - t
        shutil.rmtree(meta, ignore_errors=True)
        m = re.findall(r"(\d+) states generated, (\d+) distinct states found", r.out)
        if m:
            r.generated, r.distinct = int(m[-1][0]), int(m[-1][1])
        m = re.findall(r"depth of the complete state graph search is (\d+)", r.out)
        if m:
            r.depth = int(m[-1])
        m = re.search(r"Invariant (\S+) is violated", r.out)
        if m:
            r.invariant = m.group(1)
        else:
            m = re.search(r"(Action|Temporal) propert(y|ies) (\S+)? ?(is|were) violated", r.out)
            if m:
                r.invariant = m.group(3) or "temporal"
            elif "Temporal properties were violated" in r.out:
                r.invariant = "temporal"
        if r.invariant is None and not r.timeout and r.rc not in (0,):
            mm = re.search(r"Error: (.*)", r.out)
            r.error = mm.group(1) if mm else "TLC exit %s" % r.rc
            if "Deadlock reached" in r.out:
                r.error = "deadlock"
            if "Assumption" in r.out and "is false" in r.out:
                r.error = "assumption false"
        if count:
            self.cov["states"] += r.distinct
            self.cov["transitions"] += r.generated
        self.cov["tlc_runs"].append({"module": module, "cfg": cfg, "label": label or "", "distinct": r.distinct,
                                     "generated": r.generated, "depth": r.depth, "wall_s": round(r.wall, 1),
                                     "complete": bool(r.ok and not simulate), "timeout": r.timeout,
                                     "result": "ok" if r.ok else (r.invariant or r.error or "timeout")})
        return r

    def tlc_must_hold(self, *a, **kw):
        """Exhaustive / simulation run of a design-level config that is expected to pass.
        A failure here is a counterexample that exists only in the specification -> exit 2 (DESIGN section 2)."""
        r = self.tlc(*a, **kw)
        if r.timeout:
            raise Infra("TLC timed out on %s (%s)" % (a[1], kw.get("cfg")))
        if not r.ok:
            tail = r.out[-3000:]
            raise Infra("spec-level counterexample or TLC error in %s/%s: %s\n%s"
                        % (a[1], kw.get("cfg"), r.invariant or r.error, tail))
        self.log("TLC %s %s: %d distinct / %d generated, depth %d, %.1fs" %
                 (a[1], kw.get("cfg") or "", r.distinct, r.generated, r.depth, r.wall))
        return r

    def validate_trace(self, sub, module, trace_path, cfg=None, timeout=300, files=None, heap="4g", dfs=True,
                       extra_files=None):
        """Trace validation: TLC runs specs/<sub>/<module> which reads trace.ndjson in its cwd.
        The spec keeps a high-water mark of the trace position in TLCGet(1)-style register and prints
        'TRACE-HWM <n> <len>' from its POSTCONDITION (see TraceLib.tla).  Returns (accepted, hwm, length, TLCResult)."""
        f = {"trace.ndjson": trace_path}
        if files:
            f.update(files)
        r = self.tlc(sub, module, cfg=cfg, workers=1, timeout=timeout, files=f, heap=heap, dfs=dfs, count=False,
                     label="trace:" + os.path.basename(trace_path))
        if r.timeout:
            raise Infra("trace validation timed out: %s" % trace_path)
        m = re.findall(r'TRACE-HWM",? (-?\d+),? (\d+)', r.out)
        if not m:
            raise Infra("trace spec did not report a high-water mark (TLC error?):\n" + r.out[-3000:])
        hwm, ln = int(m[-1][0]), int(m[-1][1])
        if r.invariant is not None:
            # an invariant / action property failed on a state of the recorded trace: TLC stops, and the register read
            # by the POSTCONDITION is not the workers' one (it prints -1). The position is in the counterexample: the
            # violating state was reached by consuming line l-1 (1-based), i.e. event index l-2 (0-based).
            ls = re.findall(r'^/\\ l = (\d+)', r.out, re.M)
            hwm = max(0, int(ls[-1]) - 2) if ls else 0
        elif hwm < 0:
            raise Infra("trace spec reported no progress at all (TLC error before the first event?):\n" + r.out[-3000:])
        accepted = (hwm == ln) and r.invariant is None and r.error is None and r.rc == 0
        if r.error and "TRACE-HWM" in r.out and hwm == ln and "Postcondition" not in r.out and r.invariant is None:
            # evaluation errors inside the spec are infrastructure trouble, not a rejection
            raise Infra("TLC error during trace validation: %s\n%s" % (r.error, r.out[-3000:]))
        return accepted, hwm, ln, r

    # -------------------------------------------------------------- verdicts
    def save_replay(self, name, src_or_text):
        os.makedirs(self.replaydir, exist_ok=True)
        dst = os.path.join(self.replaydir, name)
        if isinstance(src_or_text, str) and os.path.exists(src_or_text):
            if os.path.isdir(src_or_text):
                shutil.rmtree(dst, ignore_errors=True)
                shutil.copytree(src_or_text, dst)
            else:
                shutil.copy(src_or_text, dst)
        else:
            open(dst, "w").write(src_or_text if isinstance(src_or_text, str) else json.dumps(src_or_text, indent=1))
        return dst

    def known_findings(self):
        p = os.path.join(VERIF, "known_findings.json")
        if not os.path.exists(p):
            return []
        d = json.load(open(p))
        return [k for k in d.get("known", []) if k["property"] == self.prop]

    def report(self, signature, what, replay):
        """Report a deviation observed on the real code. signature is matched against known_findings.json."""
        for k in self.known_findings():
            if k["signature"] == signature:
                if signature not in [h[0] for h in self.known_hit]:
                    self.known_hit.append((signature, k["what"]))
                return False
        self.violations.append((signature, what, replay))
        return True

    def sample(self, s, limit=6):
        if len(self.cov["samples"]) < limit:
            self.cov["samples"].append(s)

    def finish(self):
        wall = time.time() - self.t0
        cov = self.cov
        if not cov["samples"]:
            cov["samples"] = ["(no sample recorded)"]
        ev = {
            "property_id": self.prop, "tier": self.tier, "seed": self.seed, "level": self.level,
            "coverage": cov, "assumptions": self.assumptions, "wall_s": round(wall, 2),
            "violations": len(self.violations),
        }
        if self.known_hit:
            ev["coverage"]["known_findings_observed"] = [s for s, _ in self.known_hit]
        # runs against another tree (VERIF_REPO, seeded changes) must not overwrite the evidence of /repo
        evdir = os.path.join(VERIF, "evidence") if self.repo == "/repo" else os.path.join(VERIF, "replays", "alt-evidence")
        os.makedirs(evdir, exist_ok=True)
        with open(os.path.join(evdir, self.prop + ".json"), "w") as f:
            json.dump(ev, f, indent=1, sort_keys=True)
        for s, what in self.known_hit:
            print("KNOWN-FINDING: property=%s %s" % (self.prop, what), flush=True)
        shutil.rmtree(self.scratch, ignore_errors=True)
        if self.repo != "/repo":
            shutil.rmtree(self.builddir, ignore_errors=True)
        if self.violations:
            for s, what, replay in self.violations[:10]:
                print("VIOLATION property=%s replay=%s" % (self.prop, replay), flush=True)
                print("  " + what, flush=True)
            return 1
        self.log("OK: %d TLC states, %d traces/behaviours bound to the implementation, %.1fs"
                 % (cov["states"], cov["traces_validated_against_impl"], wall))
        return 0


def read_ndjson(path):
    out = []
    with open(path) as f:
        for line in f:
            line = line.strip()
            if line:
                out.append(json.loads(line))
    return out


def write_ndjson(path, events):
    with open(path, "w") as f:
        for e in events:
            f.write(json.dumps(e, sort_keys=True) + "\n")


def main(argv):
    import argparse
    import importlib.util
    ap = argparse.ArgumentParser()
    ap.add_argument("prop")
    ap.add_argument("--tier", default=os.environ.get("VERIF_TIER", "quick"))
    ap.add_argument("--replay", default=None)
    a = ap.parse_args(argv)
    seed = int(os.environ.get("VERIF_SEED", "1") or "1")
    modpath = os.path.join(VERIF, "checks", a.prop + ".py")
    if not os.path.exists(modpath):
        print("no such check: " + a.prop)
        return 2
    spec = importlib.util.spec_from_file_location("check_" + a.prop, modpath)
    mod = importlib.util.module_from_spec(spec)
    sys.path.insert(0, os.path.join(VERIF, "lib"))
    sys.path.insert(0, os.path.join(VERIF, "checks"))
    spec.loader.exec_module(mod)
    ctx = Ctx(a.prop, a.tier, seed, a.replay)
    try:
        mod.run(ctx)
        return ctx.finish()
    except Infra as e:
        if ctx.violations:
            # deviations already observed on the real code are not hidden by later infrastructure trouble
            print("NOTE property=%s infrastructure trouble after violations were observed: %s" % (a.prop, str(e)[:500]), flush=True)
            ctx.cov["aborted_by_infra"] = str(e)[:300]
            return ctx.finish()
        print("INFRA property=%s %s" % (a.prop, e), flush=True)
        shutil.rmtree(ctx.scratch, ignore_errors=True)
        if ctx.repo != "/repo":
            shutil.rmtree(ctx.builddir, ignore_errors=True)
        return 2
    except Exception as e:                                   # a bug in the check is never a violation
        import traceback
        traceback.print_exc()
        print("INFRA property=%s internal error: %s" % (a.prop, e), flush=True)
        shutil.rmtree(ctx.scratch, ignore_errors=True)
        if ctx.repo != "/repo":
            shutil.rmtree(ctx.builddir, ignore_errors=True)
        return 2
