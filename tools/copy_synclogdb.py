#!/usr/bin/env python3
import os, sys
sys.path.insert(0, os.path.join(os.path.dirname(os.path.dirname(os.path.abspath(__file__))), "lib"))
import verifkit
c = verifkit.Ctx.__new__(verifkit.Ctx)
c.repo = os.environ.get("VERIF_REPO", "/repo")
c.prebuild_copy(os.path.join(verifkit.VERIF, "harness"))
