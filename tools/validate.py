#!/usr/bin/env python3
"""Validates MANIFEST.json and every evidence file of a claimed check against the schemas (uses the tooling venv)."""
import json, os, sys, subprocess
V = os.path.dirname(os.path.dirname(os.path.abspath(__file__)))
code = r'''
import json, jsonschema, sys, os
V = sys.argv[1]
m = json.load(open(os.path.join(V, "MANIFEST.json")))
jsonschema.validate(m, json.load(open("/root/.vp/MANIFEST.schema.json")))
es = json.load(open("/root/.vp/EVIDENCE.schema.json"))
props = [json.loads(l)["id"] for l in open(os.path.join(V, "properties.jsonl"))]
claimed = [c["property_id"] for c in m["checks"]]
na = [c["property_id"] for c in m.get("not_applicable", [])]
assert sorted(claimed + na) == sorted(props), ("every property must be claimed or not_applicable", sorted(set(props) - set(claimed) - set(na)))
bad = 0
for c in m["checks"]:
    p = c["evidence_file"]
    try:
        e = json.load(open(p))
        jsonschema.validate(e, es)
        assert e["property_id"] == c["property_id"]
        assert e["level"] == c["level_claimed"]["category"], (e["level"], c["level_claimed"]["category"])
        print("ok  ", c["property_id"], e["tier"], e["level"], "wall %.0fs" % e["wall_s"], "viol", e.get("violations"))
    except Exception as ex:
        bad += 1
        print("BAD ", c["property_id"], str(ex)[:300])
print("claimed:", claimed, "not_applicable:", na)
sys.exit(1 if bad else 0)
'''
sys.exit(subprocess.call(["python3-vt", "-c", code, V]))
