#!/usr/bin/env python3
"""Prints the prompt given to a fresh sub-agent that seeds a property-breaking change (it gets only the property text
and a scratch worktree). usage: mutant_prompt.py Cxx /tmp/mut-dir [n]"""
import json, sys
pid, wt = sys.argv[1], sys.argv[2]
n = int(sys.argv[3]) if len(sys.argv) > 3 else 2
prop = [json.loads(l) for l in open('/verif/properties.jsonl') if json.loads(l)['id'] == pid][0]
print(f"""You are helping to evaluate a verification effort for the Go blockchain node vechain/thor by playing the role of a developer who introduces a subtle regression. You work ONLY inside the scratch git worktree {wt} (a checkout of the repository). Do not read or write anything under /verif or /repo, and do not look for verification tooling: your change must be independent of it.

Here is a semantic property of the system that is supposed to hold (JSON record):

{json.dumps(prop, indent=1)}

TASK: produce {n} DIFFERENT source changes (call them m1{', m2' if n>1 else ''}{', m3' if n>2 else ''}; different mechanisms / different code sites), each of which
 (a) BREAKS this property — some input, schedule, crash point or history now violates the statement;
 (b) still compiles: `go build ./...` succeeds;
 (c) still passes the EXISTING test suite unedited — at minimum run `go test -count=1` for every package you touched and every package that plausibly exercises it (e.g. ./bft/... ./consensus/... ./packer/... ./chain/... ./cmd/thor/node/... ./txpool/... as relevant) and report what you ran; if an existing test fails, the change is not acceptable — pick another;
 (d) is REALISTIC (something a maintainer could plausibly write: a wrong comparison, a dropped guard, a cache not invalidated, a mis-ordered write, an off-by-one, a forgotten case) and needs something SPECIFIC to manifest — a particular interleaving, a crash or fault at a particular point, a multi-step sequence of operations, an unusual input, or two cooperating sites that each look fine alone — NOT something ordinary use would expose at once;
 (e) touches only non-test Go source of thor itself; do not touch files named verif_hooks*.go or guarded by the build tag `verif`, do not edit tests, go.mod or vendored deps.
For each change also write a DEMONSTRATION: a Go test (may live in the touched package as a new _test.go file, or a small program) that FAILS with the change applied and PASSES on the original tree; verify both directions yourself (flip with `git diff > /tmp/x.patch; git apply -R /tmp/x.patch; ... ; git apply /tmp/x.patch` — NEVER use `git stash`: the stash is shared by all worktrees of this repository and other people work in sibling worktrees).

Environment: no network. In every shell: `export GOFLAGS=-mod=mod GOPROXY=off` (do NOT set GOSUMDB=off or GOTOOLCHAIN=local). `go build ./...` takes ≈50 s cold. The repo's README/docs are in the worktree. Some files in the tree named verif_hooks.go (build tag verif) are test instrumentation: ignore them.

OUTPUT: for each change i, create directory {wt}/_mutants/m<i>/ containing
  patch.diff   — `git diff` of the source change ONLY (no demo files), applicable with `git apply` at the repository root;
  demo/        — the demonstration file(s), with their repository-relative target path noted in meta.json;
  meta.json    — {{"property": "{pid}", "summary": "...what was changed and why it breaks the property...", "needs": "...what specific circumstance makes it manifest...", "files_changed": [...], "demo_files": [{{"src": "demo/x_test.go", "dst": "pkg/x_test.go"}}], "demo_cmd": "go test -run TestName ./pkg/", "existing_tests_run": "..."}}.
Leave the worktree itself clean of the change when you finish (git checkout -- . ; remove untracked demo files outside _mutants). Finally reply with a 5-line summary per change. If after serious effort you can only produce fewer changes, deliver those.""")
