#!/bin/bash
# mutant evaluation queue: lines "<mutant-dir> <seeded-id> <checks...>" appended to /tmp/mutq.todo are processed (3 at a time)
cd /verif
touch /tmp/mutq.todo /tmp/mutq.done
while true; do
  mapfile -t lines < <(grep -vxFf /tmp/mutq.done /tmp/mutq.todo | head -3)
  if [ ${#lines[@]} -eq 0 ]; then sleep 15; [ -f /tmp/mutq.stop ] && exit 0; continue; fi
  for l in "${lines[@]}"; do
    ( tools/keep_mutant.sh $l 2>&1 | grep "^/verif/seeded" >> /tmp/mutq.log; echo "$l" >> /tmp/mutq.done ) &
  done
  wait
done
