#!/bin/bash
# mutant evaluation queue: lines "<mutant-dir> <seeded-id> <checks...>" appended to /tmp/mutq.todo; rolling pool of N jobs
N=${MUTQ_N:-4}
cd /verif
touch /tmp/mutq.todo /tmp/mutq.done /tmp/mutq.started
while true; do
  [ -f /tmp/mutq.stop ] && exit 0
  running=$(pgrep -fc 'tools/keep_mutant[.]sh' || true)
  if [ "$running" -lt "$N" ]; then
    l=$(grep -vxFf /tmp/mutq.started /tmp/mutq.todo | head -1)
    if [ -n "$l" ]; then
      echo "$l" >> /tmp/mutq.started
      ( timeout 2400 tools/keep_mutant.sh $l 2>&1 | grep "^/verif/seeded" >> /tmp/mutq.log; echo "$l" >> /tmp/mutq.done ) &
      sleep 2; continue
    fi
  fi
  sleep 10
done
