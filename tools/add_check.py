#!/usr/bin/env python3
"""usage: add_check.py <json file with {"id":..,"engine":..,"ref":..,"technique":..,"text":..,"note":..,"level"?:..,"engine_entry"?:{...}}>"""
import json, sys, os
V = os.path.dirname(os.path.dirname(os.path.abspath(__file__)))
p = os.path.join(V, "tools", "checks_table.json")
t = json.load(open(p))
e = json.load(open(sys.argv[1]))
i = e.pop("id")
eng = e.pop("engine_entry", None)
t["checks"][i] = e
if eng and eng["name"] not in [x["name"] for x in t["engines"]]:
    t["engines"].append(eng)
elif eng:
    for x in t["engines"]:
        if x["name"] == eng["name"] and i not in x["serves_properties"]:
            x["serves_properties"].append(i)
json.dump(t, open(p, "w"), indent=1)
print("added", i)
