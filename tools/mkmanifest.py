#!/usr/bin/env python3
"""Generates /verif/MANIFEST.json from the table below (single source of truth)."""
import json, os, subprocess
V = os.path.dirname(os.path.dirname(os.path.abspath(__file__)))
props = [json.loads(l) for l in open(os.path.join(V, "properties.jsonl"))]

def hook_commits():
    out = subprocess.run(["git", "-C", "/repo", "log", "--format=%h %s"], stdout=subprocess.PIPE, text=True).stdout
    return [l.split()[0] for l in out.splitlines() if " verif hooks:" in l]

MC = "model_checking"
CHECKS = {
 "C03": dict(
  technique="TLA+ spec (BFT.tla) exhaustively model-checked with TLC + trace validation of the real bft.Engine/node import path against Trace_BFT.tla",
  engine="bft",
  text="BFT.tla (block-level finality gadget: vote rule, tallies, fork choice, finality, restart) is explored exhaustively by TLC for "
       "4 validators / 1 Byzantine within small bounds; FinalitySafety, FinMonotone, BestExtendsFin hold in every state. The binding is "
       "implementation->model: seeded runs of 3-6 real node stacks (real packer, consensus, bft engine, repository) under honest, "
       "asynchronous, Byzantine-equivocation, restart and threshold-boundary schedules are recorded and every event is re-derived by "
       "Trace_BFT.tla (COM bit, accept/refuse, best, finalized, justified, tally, casts) with all invariants evaluated after every event.",
  note="Trusted: hashes/signatures as injective oracles; block ids, scores and id order are logged facts. Exhaustive only inside MCBFT_*.cfg bounds; "
       "larger adversarial behaviours are sampled. Liveness clause checked on synchronous all-honest traces (justified/committed recomputed per block).",
  ref="5 C03/C04"),
 "C04": dict(
  technique="TLA+ spec (BFT.tla OrderIndependence) model-checked with TLC + trace validation of permuted/late/duplicated deliveries to real nodes against Trace_BFT.tla",
  engine="bft",
  text="OrderIndependence and RestartKeepsVoteRule are invariants of BFT.tla checked exhaustively. On the implementation, the same seeded block tree is delivered "
       "to every real node in a different parent-before-child order with duplicates and restarts (plus the targeted late-sibling stream); Trace_BFT.tla "
       "recomputes best/finalized/justified and the definitional vote tally (from scratch, per block) and requires equality with what the engine reported "
       "(incremental, cached); OrderIndependence is evaluated after every event over all nodes.",
  note="Trusted: hashes as oracles; ids/scores logged. Orders are sampled (seeded), the design-level invariant is exhaustive within bounds.",
  ref="5 C03/C04"),
 "C13": dict(
  technique="TLA+ spec of the import write sequence (ImportCrash.tla) model-checked over every crash cut with TLC + crash-cut enumeration on the real node, each run validated against Trace_ImportCrash.tla",
  engine="crash", level="fault_enumeration",
  text="ImportCrash.tla models one block import as its ordered durable writes (state tries, log-db transaction, index trie, block bulk incl. best "
       "pointer, quality, finalized), crash between any two, restart (incl. log-db resync) and resumption; TLC checks BestComplete, StoredComplete, "
       "LogsMatchBest, FinalityNotContradicting, FinMonotone and ResumeConverges over every cut (<= 2 crashes) of a forked 4-epoch stream. On the real "
       "code a recording kv engine under muxdb makes a real node die before durable write k for EVERY k of seeded block streams (forks, store points, "
       "transactions with logs; optionally a second crash while resuming); the node is restarted with thor's start-up sequence (genesis build, repository, "
       "thor's own syncLogDB, bft engine), the best block is read completely (header, txs, receipts, number index, tx index, full walk of account and "
       "storage tries compared with the uninterrupted node), the log db is compared with the canonical chain, and the stream is resumed and compared with "
       "the uninterrupted node (best, qualities, finalized). Each run is also a trace that Trace_ImportCrash.tla must accept (write order, restart and end state).",
  note="Trusted: a leveldb batch is atomic and batches are durable in issue order; a committed sqlite transaction is durable; crashes happen between kv writes. "
       "Known finding F2 (quality of a store point lost between block bulk and quality write) is reported as KNOWN-FINDING by signature resume-diverges:q.",
  ref="5 C13"),
}
ENGINES = [
 dict(name="crash", path="specs/store/ImportCrash.tla + harness/cmd/crashcuts + checks/C13.py", serves_properties=["C13"],
      kind_free_text="TLA+/TLC over all crash cuts + exhaustive cut enumeration on the real node with trace validation"),
 dict(name="bft", path="specs/bft + harness/cmd/bftsim + checks/bftcommon.py", serves_properties=["C03", "C04"],
      kind_free_text="TLA+/TLC exhaustive model + trace validation of real-code simulator runs"),
]
NA_DEFAULT = "check not built yet (implementation in progress, see DESIGN.md section 9)"
NA = {}

m = {"version": 1, "setup_cmd": "cd /verif && bin/setup",
     "hooks": {"guard": "verif",
               "enable": "go build -tags verif (harness module /verif/harness: replace github.com/vechain/thor/v2 => /repo)",
               "baseline_off_cmd": "cd /repo && go build ./... && go test -vet=off -count=1 -timeout 25m ./...",
               "source_commits": hook_commits(), "add_only": True},
     "engines": ENGINES, "checks": [], "not_applicable": [],
     "notes": "bin/check <id> [--tier quick|thorough] [--replay <path>]; env VERIF_SEED, VERIF_TIER, VERIF_REPO (alternate tree). "
              "Exit 0 ok / 1 VIOLATION (observed on real code) / 2 infrastructure or spec-only counterexample. See DESIGN.md."}
for p in props:
    i = p["id"]
    if i in CHECKS:
        c = CHECKS[i]
        m["checks"].append({
            "property_id": i, "quick_cmd": "bin/check %s --tier quick" % i, "thorough_cmd": "bin/check %s --tier thorough" % i,
            "evidence_file": "/verif/evidence/%s.json" % i, "replay_cmd_template": "bin/check %s --replay {path}" % i,
            "engine": c["engine"], "technique": c["technique"],
            "level_claimed": {"category": c.get("level", MC), "text": c["text"], "design_ref": "DESIGN.md section " + c["ref"]},
            "level_note": c["note"]})
    else:
        m["not_applicable"].append({"property_id": i, "reason": NA.get(i, NA_DEFAULT)})
json.dump(m, open(os.path.join(V, "MANIFEST.json"), "w"), indent=1)
print("checks:", [c["property_id"] for c in m["checks"]])
