#!/usr/bin/env python3
"""Generates /verif/MANIFEST.json from tools/checks_table.json (single source of truth: one entry per claimed check:
technique, engine, level (default model_checking), text, note, ref; plus the engines list and optional not_applicable reasons)."""
import json, os, subprocess
V = os.path.dirname(os.path.dirname(os.path.abspath(__file__)))
props = [json.loads(l) for l in open(os.path.join(V, "properties.jsonl"))]
T = json.load(open(os.path.join(V, "tools", "checks_table.json")))
CHECKS, ENGINES, NA = T["checks"], T["engines"], T.get("not_applicable", {})


def hook_commits():
    out = subprocess.run(["git", "-C", "/repo", "log", "--format=%h %s"], stdout=subprocess.PIPE, text=True).stdout
    return [l.split()[0] for l in out.splitlines() if " verif hooks:" in l]


NA_DEFAULT = "check not built yet (implementation in progress, see DESIGN.md section 9 and 11)"
m = {"version": 1, "setup_cmd": "cd /verif && bin/setup",
     "hooks": {"guard": "verif",
               "enable": "go build -tags verif (harness module /verif/harness: replace github.com/vechain/thor/v2 => /repo)",
               "baseline_off_cmd": "cd /repo && go build ./... && go test -vet=off -count=1 -timeout 25m ./...",
               "source_commits": hook_commits(), "add_only": True},
     "engines": ENGINES, "checks": [], "not_applicable": [],
     "notes": "bin/check <id> [--tier quick|thorough] [--replay <path>]; env VERIF_SEED, VERIF_TIER, VERIF_REPO (alternate tree). "
              "Exit 0 ok / 1 VIOLATION (observed on real code) / 2 infrastructure or spec-only counterexample. See DESIGN.md, FRAMEWORK.md."}
for p in props:
    i = p["id"]
    if i in CHECKS:
        c = CHECKS[i]
        m["checks"].append({
            "property_id": i, "quick_cmd": "bin/check %s --tier quick" % i, "thorough_cmd": "bin/check %s --tier thorough" % i,
            "evidence_file": "/verif/evidence/%s.json" % i, "replay_cmd_template": "bin/check %s --replay {path}" % i,
            "engine": c["engine"], "technique": c["technique"],
            "level_claimed": {"category": c.get("level", "model_checking"), "text": c["text"], "design_ref": "DESIGN.md section " + c["ref"]},
            "level_note": c["note"]})
    else:
        m["not_applicable"].append({"property_id": i, "reason": NA.get(i, NA_DEFAULT)})
json.dump(m, open(os.path.join(V, "MANIFEST.json"), "w"), indent=1)
print("checks:", [c["property_id"] for c in m["checks"]])
