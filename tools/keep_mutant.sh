#!/bin/bash
# usage: keep_mutant.sh <mutant-dir> <seeded-id> <checks...> : confirm + run checks, store under /verif/seeded/<id>/
M=$(readlink -f "$1"); ID=$2; shift 2
D=/verif/seeded/$ID; mkdir -p $D
cp -r $M/patch.diff $M/demo $D/ 2>/dev/null
/verif/tools/try_mutant.sh $M "$@" > $D/run.log 2>&1
python3 - "$M" "$D" "$@" <<'PY'
import json,sys,re,os
m,d,checks=sys.argv[1],sys.argv[2],sys.argv[3:]
meta=json.load(open(os.path.join(m,'meta.json')))
log=open(os.path.join(d,'run.log')).read()
meta['confirmed']={'demo_passes_on_original':'   pass' in log,'builds':'BUILD FAILS' not in log,'demo_fails_with_patch':'fails (good)' in log,
                   'existing_tests_of_touched_packages': 'FAIL' not in log.split('== existing tests')[1].split('== check')[0] if '== existing tests' in log else None}
res={}
for c in checks:
    seg=log.split('== check %s against the mutant'%c)[1].split('== check')[0] if ('== check %s against the mutant'%c) in log else ''
    res[c]='detected' if 'VIOLATION property=%s'%c in seg else ('infra' if 'INFRA' in seg else 'missed')
if meta.get('checks_run') and meta['checks_run']!=res:
    meta.setdefault('checks_run_earlier',[]).append(meta['checks_run'])
meta['checks_run']=res
meta['what_i_ran']='tools/try_mutant.sh (scratch worktree: apply patch, go build ./..., demo both ways, go test of touched packages, then VERIF_REPO=<worktree> bin/check <id> quick tier)'
json.dump(meta,open(os.path.join(d,'meta.json'),'w'),indent=1)
print(d, meta['confirmed'], res)
PY
