#!/bin/bash
# usage: try_mutant.sh <mutant-dir (with patch.diff, meta.json, demo/)> <check ids...>
# Confirms the mutant in a scratch worktree (applies, builds, demo fails with / passes without, touched packages' tests pass)
# and runs the given checks against that worktree via VERIF_REPO. Nothing touches /repo's working tree.
set -u
M=$(readlink -f "$1"); shift
WT=/tmp/try-$$-$(basename "$M")
export GOFLAGS=-mod=mod GOPROXY=off
git -C /repo worktree add -q "$WT" HEAD || exit 2
cleanup() { git -C /repo worktree remove --force "$WT" >/dev/null 2>&1; }
trap cleanup EXIT
cd "$WT"
python3 - "$M" "$WT" <<'PY'
import json,sys,shutil,os
m,wt=sys.argv[1],sys.argv[2]
meta=json.load(open(os.path.join(m,'meta.json')))
for d in meta.get('demo_files',[]):
    dst=os.path.join(wt,d['dst']); os.makedirs(os.path.dirname(dst),exist_ok=True)
    shutil.copy(os.path.join(m,d['src']),dst)
open(os.path.join(wt,'.demo_cmd'),'w').write(meta['demo_cmd'])
open(os.path.join(wt,'.pkgs'),'w').write(' '.join(sorted({'./'+os.path.dirname(f)+'/' for f in meta['files_changed']})))
PY
DEMO=$(cat .demo_cmd); PKGS=$(cat .pkgs)
echo "== demo on original tree (must pass): $DEMO"
if bash -c "$DEMO" >/tmp/try-$$.log 2>&1; then echo "   pass"; else echo "   FAILS on original -> mutant not usable"; tail -5 /tmp/try-$$.log; fi
git apply "$M/patch.diff" || { echo "patch does not apply"; exit 2; }
echo "== build with patch"; go build ./... || { echo "BUILD FAILS"; exit 2; }
echo "== demo with patch (must fail)"
if bash -c "$DEMO" >/tmp/try-$$.log 2>&1; then echo "   PASSES with patch -> mutant not demonstrated"; else echo "   fails (good)"; fi
# remove demo files before running existing tests
python3 - "$M" "$WT" <<'PY'
import json,sys,os
m,wt=sys.argv[1],sys.argv[2]
for d in json.load(open(os.path.join(m,'meta.json'))).get('demo_files',[]):
    os.remove(os.path.join(wt,d['dst']))
PY
echo "== existing tests of touched packages: $PKGS"
go test -count=1 $PKGS 2>&1 | tail -4
for c in "$@"; do
  echo "== check $c against the mutant"
  ( cd /verif && VERIF_REPO="$WT" bin/check "$c" 2>&1 | grep -E "VIOLATION|KNOWN-FINDING|INFRA| OK:" | cut -c1-260 | head -6 )
done
rm -f /tmp/try-$$.log
