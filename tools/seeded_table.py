#!/usr/bin/env python3
"""Regenerates the seeded-changes table in DESIGN.md (between the SEEDED-TABLE markers) from seeded/*/meta.json."""
import json, glob, os, re
V = os.path.dirname(os.path.dirname(os.path.abspath(__file__)))
rows = []
for f in sorted(glob.glob(os.path.join(V, "seeded", "*", "meta.json"))):
    m = json.load(open(f))
    sid = os.path.basename(os.path.dirname(f))
    summ = re.sub(r"\s+", " ", m.get("summary", "")).strip()
    needs = re.sub(r"\s+", " ", m.get("needs", "")).strip()
    cut = lambda s, n: (s[:n] + "…") if len(s) > n else s
    res = m.get("checks_run", {})
    note = m.get("note", "")
    rows.append("| %s | %s | %s | %s | %s |" % (sid, m.get("property", ""), cut(summ, 230).replace("|", "/"), cut(needs, 170).replace("|", "/"),
                                           ", ".join("%s: %s" % kv for kv in sorted(res.items())) + ((" — " + note) if note else "")))
tab = ("| seeded/ id | property | change | needs | quick-tier result |\n|---|---|---|---|---|\n" + "\n".join(rows) +
       "\n\n%d seeded changes; every one was confirmed in a scratch worktree (applies, `go build ./...`, demonstration fails with / passes "
       "without it, the touched packages' own tests pass) by tools/keep_mutant.sh before the checks were run against it.\n" % len(rows))
p = os.path.join(V, "DESIGN.md")
s = open(p).read()
a, b = "<!-- SEEDED-TABLE-BEGIN -->", "<!-- SEEDED-TABLE-END -->"
assert a in s and b in s
s = s[:s.index(a) + len(a)] + "\n" + tab + s[s.index(b):]
open(p, "w").write(s)
print(len(rows), "rows")
